(* C01 - get_basis returns exactly the curated data it is composed from.
   Statements are in Proofs/ComposeDefs.v: the loop-and-dictionary shaped model of compose.py (caches of files read once)
   refines the per-element specification spec_element. *)
From BSE Require Import Model.Val Model.Elements Model.Compose Proofs.ComposeDefs Proofs.ComposeSpec.

(* merge_element_data(None, sources): shells and reference groups concatenated in source order, the unique ECP, nothing else *)
Theorem merge_sources_spec : merge_sources_spec_stmt.
Proof. exact ComposeSpec.merge_sources_spec. Qed.
Print Assumptions merge_sources_spec.

Theorem merge_two_ecps_refused : merge_two_ecps_refused_stmt.
Proof. exact ComposeSpec.merge_two_ecps_refused. Qed.
Print Assumptions merge_two_ecps_refused.

(* same element keys in the table's order; each element = the merge of exactly the component entries listed for it.
   _partial: under the hypothesis that the basis metadata file has no "elements" key (its schema forbids it:
   additionalProperties false); without it compose.py's final table_bs.update(bs_meta) would overwrite the composed
   elements - counterexample in DESIGN.md *)
Theorem compose_table_elements_partial :
  forall d t b, compose_table_basis d t = inr b ->
    (forall md, read_json_basis d (meta_path t) = inr (VDict md) -> assoc "elements" md = None) ->
    exists table tels els',
      read_json_basis d t = inr table /\ vfield "elements" table = inr (VDict tels) /\
      vfield "elements" b = inr (VDict els') /\ map fst els' = map fst tels /\
      Forall2 (fun kv' kv => exists efile, snd kv = VStr efile /\ spec_element d efile (fst kv) = inr (snd kv')) els' tels.
Proof. exact ComposeSpec.compose_table_elements_partial. Qed.
Print Assumptions compose_table_elements_partial.

(* an inconsistent chain (component without the element, element file without the element, second ECP, missing file ...)
   is refused, never composed *)
Theorem compose_refuses : compose_refuses_stmt.
Proof. exact ComposeSpec.compose_refuses. Qed.
Print Assumptions compose_refuses.

(* metadata overlay, version from the file name, function types recomputed; _partial: metadata file with duplicate-free
   keys (a JSON object) and without "elements" *)
Theorem compose_table_fields_partial :
  forall d t b, compose_table_basis d t = inr b ->
    (forall md, read_json_basis d (meta_path t) = inr (VDict md) -> NoDup (map fst md) /\ assoc "elements" md = None) ->
    exists table meta md els',
      read_json_basis d t = inr table /\
      read_json_basis d (path_join (dirname t) (hd "" (split_on "." (basename t)) +++ ".metadata.json")) = inr meta /\
      meta = VDict md /\ vfield "elements" b = inr (VDict els') /\
      (forall k v, assoc k md = Some v -> k <> "molssi_bse_schema" -> vfield k b = inr v) /\
      (assoc "version" md = None -> exists ver, nth_from_end (split_on "." (basename t)) 2 = inr ver /\ vfield "version" b = inr (VStr ver)) /\
      (assoc "function_types" md = None -> exists ft, whole_basis_types els' = inr ft /\ vfield "function_types" b = inr (VStrs ft)) /\
      (forall k, ~ In k ["elements"; "version"; "function_types"; "molssi_bse_schema"] -> assoc k md = None -> vfield k b = vfield k table).
Proof. exact ComposeSpec.compose_table_fields_partial. Qed.
Print Assumptions compose_table_fields_partial.

Theorem whole_basis_types_spec : whole_basis_types_spec_stmt.
Proof. exact ComposeSpec.whole_basis_types_spec. Qed.
Print Assumptions whole_basis_types_spec.

(* non-vacuity: a two-component directory composes *)
Definition bse_tag (t : string) : string * val := ("molssi_bse_schema", VDict [("schema_type", VStr t); ("schema_version", VStr "0.1")]).
Definition demo_shell : val := VDict [("function_type", VStr "gto"); ("region", VStr ""); ("angular_momentum", VList [VInt 0]);
                                      ("exponents", VStrs ["1.0"]); ("coefficients", VList [VStrs ["1.0"]])].
Definition demo_dir : datadir :=
  [ ("x.1.table.json", VDict [bse_tag "table"; ("revision_description", VStr "r"); ("revision_date", VStr "2020-01-01");
                              ("elements", VDict [("1", VStr "c/x.1.element.json")])]);
    ("x.metadata.json", VDict [bse_tag "metadata"; ("names", VStrs ["X"]); ("tags", VList []); ("family", VStr "f");
                               ("description", VStr "d"); ("role", VStr "orbital"); ("auxiliaries", VDict [])]);
    ("c/x.1.element.json", VDict [bse_tag "element"; ("name", VStr "X"); ("description", VStr "e");
                                  ("elements", VDict [("1", VDict [("components", VStrs ["c/a.1.json"; "c/b.1.json"])])])]);
    ("c/a.1.json", VDict [bse_tag "component"; ("description", VStr "A"); ("data_source", VStr "");
                          ("elements", VDict [("1", VDict [("references", VStrs ["ra"]); ("electron_shells", VList [demo_shell])])])]);
    ("c/b.1.json", VDict [bse_tag "component"; ("description", VStr "B"); ("data_source", VStr "");
                          ("elements", VDict [("1", VDict [("references", VStrs ["rb"]); ("electron_shells", VList [demo_shell])])])]) ].
Example demo_composes : exists b, compose_table_basis demo_dir "x.1.table.json" = inr b.
Proof. eexists. vm_compute. reflexivity. Qed.
