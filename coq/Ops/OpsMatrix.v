From BSE Require Import Model.Val Model.Basis Model.Matrix Model.WriterPipe.
Definition dec_cell (v : val) : res cell := match v with VInt z => ok (CInt z) | VStr s => ok (CStr s) | _ => fail EDecode end.
Definition ops_matrix (op : string) (args : list val) : option (res val) :=
  match op, args with
  | "write_matrix", [m; pps; VBool conv] =>
      Some (do cols <- (do l <- as_list m; mapM (fun c => do cl <- as_list c; mapM dec_cell cl) l);
            do pp <- dec_ints pps; do s <- write_matrix cols pp conv; ok (VStr s))
  | "parse_primitive_matrix", [ls] =>
      Some (do l <- dec_strs ls; do r <- parse_primitive_matrix l; ok (VList [VStrs (fst r); VList (map VStrs (snd r))]))
  | "parse_ecp_table", [ls] =>
      Some (do l <- dec_strs ls; do r <- parse_ecp_table l;
            ok (VDict [("r_exp", VList (map VInt (fst (fst r)))); ("g_exp", VStrs (snd (fst r))); ("coeff", VList (map VStrs (snd r)))]))
  | "is_floating", [VStr s] => Some (ok (VBool (is_floating s)))
  | "is_integer", [VStr s] => Some (ok (VBool (is_integer s)))
  | "potential_am_list", [VInt n] => Some (ok (VList (map VNat (potential_am_list (Z.to_nat n)))))
  | "writer_expected", [VStr fmt; fts; b] =>
      Some (do ft <- dec_strs fts; do bb <- dec_basis b; do r <- writer_expected fmt ft bb;
            ok (VDict (map (fun kv => (fst kv, VList [VStrs (fst (snd kv)); VStrs (snd (snd kv))])) r)))
  | _, _ => None
  end.
