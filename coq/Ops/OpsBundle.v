From BSE Require Import Model.Val Model.Bundle.
Definition dec_bitem (v : val) : res bitem :=
  do d <- as_dict v;
  do n <- (do x <- field "name" d; as_str x);
  do vs <- (do x <- field "versions" d; do l <- as_list x;
            mapM (fun p => match p with VList [VStr ver; VStr a; VStr b] => ok (ver, (a, b)) | _ => fail EDecode end) l);
  do nt <- (do x <- field "notes" d; as_str x);
  ok {| b_name := n; b_versions := vs; b_notes := nt |}.
Definition ops_bundle (op : string) (args : list val) : option (res val) :=
  match op, args with
  | "bundle_members", [VStr fmt; VStr reffmt; VStr ext; VStr refext; VStr readme; items; fams] =>
      Some (do its <- (do l <- as_list items; mapM dec_bitem l);
            do fn <- (do l <- as_list fams; mapM (fun p => match p with VList [VStr f; VStr t] => ok (f, t) | _ => fail EDecode end) l);
            ok (VList (map (fun m => VList [VStr (fst m); VStr (snd m)]) (bundle_members fmt reffmt ext refext readme its fn))))
  | _, _ => None
  end.
