From BSE Require Import Model.Val Gen.GenMemo Model.Memo.

Definition dec_sig (v : val) : res sig :=
  do l <- as_list v;
  match l with
  | [a; d] => do names <- (do x <- as_list a; mapM as_str x); do ds <- as_list d; ok {| s_args := names; s_defaults := ds |}
  | _ => fail EDecode
  end.
Definition enc_okey (k : option (list val)) : val := match k with Some l => VList l | None => VNone end.

Definition ops_memo (op : string) (args : list val) : option (res val) :=
  match op, args with
  | "make_key", [s; VList a; VDict kw] => Some (do sg <- dec_sig s; do k <- make_key sg a kw; ok (enc_okey k))
  | "make_key_named", [VStr f; VList a; VDict kw] => Some (do k <- make_key (sig_table f) a kw; ok (enc_okey k))
  | "bind_call", [s; VList a; VDict kw] => Some (do sg <- dec_sig s; ok (enc_okey (bind_call sg a kw)))
  | "memoised_signatures", [] =>
      Some (ok (VDict (map (fun p => (fst p, VList [VStrs (s_args (snd p)); VList (s_defaults (snd p))])) memoised)))
  | _, _ => None
  end.
