From BSE Require Import Model.Val Model.Basis Model.Augment Ops.OpsManip.
Definition enc_newshell (n : newshell) : val :=
  VDict [("function_type", VStr (ns_ftype n)); ("region", VStr (ns_region n)); ("angular_momentum", VList (map VInt (ns_am n)));
         ("exponent_num", VInt (fst (ns_exp n))); ("exponent_den", VInt (snd (ns_exp n)))].
Definition ops_augment (op : string) (args : list val) : option (res val) :=
  match op, args with
  | "augment_shells", [shs; VInt n; VBool steep] =>
      Some (do l <- as_list shs; do ss <- mapM dec_shell l; do r <- augment_shells (Z.to_nat n) steep ss; ok (VList (map enc_newshell r)))
  | "truhlar_calendarize", [b; VStr month] => Some (on_basis (truhlar_calendarize month) b)
  | _, _ => None
  end.
