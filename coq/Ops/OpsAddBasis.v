From BSE Require Import Model.Val Model.Compose Model.AddBasis.
Definition dec_refs_arg (v : val) : res refs_arg :=
  match v with
  | VStr s => ok (RefsStr s)
  | VList l => do ss <- mapM as_str l; ok (RefsList ss)
  | VDict m => do mm <- mapM (fun kv => match snd kv with
                                        | VStr s => ok (fst kv, inl s)
                                        | VList l => do ss <- mapM as_str l; ok (fst kv, inr ss)
                                        | _ => fail EDecode
                                        end) m; ok (RefsDict mm)
  | VNone => ok (RefsList [])
  | _ => fail EDecode
  end.
Definition str9 (l : list val) : res (list string) := mapM as_str l.
Definition ops_addbasis (op : string) (args : list val) : option (res val) :=
  match op, args with
  | "add_from_components", [VDict d; comps; VList strs] =>
      Some (do cs <- (do l <- as_list comps; mapM as_str l);
            do s <- str9 strs;
            match s with
            | [subdir; fb; name; family; role; desc; version; revdesc; today] =>
              do r <- add_from_components d cs subdir fb name family role desc version revdesc today; ok (VDict r)
            | _ => fail EDecode
            end)
  | "add_basis_from_dict", [VDict d; bs; VList strs; refs] =>
      Some (do s <- str9 strs; do rf <- dec_refs_arg refs;
            match s with
            | [subdir; fb; name; family; role; desc; version; revdesc; src; today] =>
              do r <- add_basis_from_dict d bs subdir fb name family role desc version revdesc src today rf; ok (VDict r)
            | _ => fail EDecode
            end)
  | _, _ => None
  end.
