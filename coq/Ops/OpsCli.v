From BSE Require Import Model.Val Gen.GenCli Model.Cli.
Definition enc_arg (a : cli_arg) : val :=
  VDict [("opts", VStrs (arg_opts a)); ("dest", VStr (arg_dest a)); ("action", VStr (arg_action a)); ("type", VStr (arg_type a));
         ("default", arg_default a)].
Definition ops_cli (op : string) (args : list val) : option (res val) :=
  match op, args with
  | "cli_table", [] => Some (ok (VDict (("", VList (map enc_arg cli_global_args)) ::
                                       map (fun s => (fst s, VList (map enc_arg (snd s)))) cli_subcommands)))
  | "cli_routes", [VStr sub; VStr opt] =>
      Some (ok (VList (map (fun r => VList [VStr (fst (fst r)); VStr (snd (fst r)); VBool (snd r)]) (routes sub opt))))
  | _, _ => None
  end.
