(* Operation table of the model for the C20 correspondence (decoding of arguments, call, encoding). *)
From BSE Require Import Model.Val Gen.GenLut Model.Lut Model.Elements.

Definition dec_zlist (v : val) : res (list Z) := do l <- as_list v; mapM as_int l.
Definition enc_zlist (l : list Z) : val := VList (map VInt l).

Definition dec_item (v : val) : res (Z + string) :=
  match v with VInt z => ok (inl z) | VStr s => ok (inr s) | _ => fail EDecode end.
Definition dec_elsel (v : val) : res elsel :=
  match v with
  | VNone => ok SelNone
  | VInt z => ok (SelInt z)
  | VStr s => ok (SelStr s)
  | VList l => do items <- mapM dec_item l; ok (SelList items)
  | _ => fail EDecode
  end.
Definition dec_cshell (v : val) : res cshell :=
  do l <- as_list v;
  match l with
  | [a; p; c] => do am <- dec_zlist a; do np <- as_nat p; do nc <- as_nat c; ok (am, np, nc)
  | _ => fail EDecode
  end.
Definition enc_entry (e : entry) : val := VList [VStr (e_sym e); VInt (e_Z e); VStr (e_name e)].

Definition ops_c20 (op : string) (args : list val) : option (res val) :=
  match op, args with
  | "compact_elements", [l] => Some (
      do zs <- dec_zlist l; do r <- compact_elements zs;
      ok (match r with None => VNone | Some s => VStr s end))
  | "expand_elements", [sel] => Some (do s <- dec_elsel sel; do r <- expand_elements s; ok (enc_zlist r))
  | "element_data_from_Z", [VInt z] => Some (do e <- element_data_from_Z z; ok (enc_entry e))
  | "element_data_from_sym", [VStr s] => Some (do e <- element_data_from_sym s; ok (enc_entry e))
  | "element_data_from_name", [VStr s] => Some (do e <- element_data_from_name s; ok (enc_entry e))
  | "element_sym_from_Z", [VInt z; VBool n] => Some (do s <- element_sym_from_Z z n; ok (VStr s))
  | "element_name_from_Z", [VInt z; VBool n] => Some (do s <- element_name_from_Z z n; ok (VStr s))
  | "element_Z_from_sym", [VStr s] => Some (do z <- element_Z_from_sym s; ok (VInt z))
  | "element_Z_from_name", [VStr s] => Some (do z <- element_Z_from_name s; ok (VInt z))
  | "amint_to_char", [am; VBool hij; VBool useL] =>
      Some (do l <- dec_zlist am; do s <- amint_to_char l hij useL; ok (VStr s))
  | "amchar_to_int", [VStr s; VBool hij] => Some (do l <- amchar_to_int s hij; ok (enc_zlist l))
  | "electron_shells_start", [VInt n; VInt m] => Some (do l <- electron_shells_start n m; ok (enc_zlist l))
  | "transform_basis_name", [VStr s] => Some (ok (VStr (transform_basis_name s)))
  | "basis_name_from_filename", [VStr s] => Some (ok (VStr (basis_name_from_filename s)))
  | "contraction_string", [shs; VBool compact] => Some (
      do o <- match shs with
              | VNone => ok None
              | _ => do l <- as_list shs; do cs <- mapM dec_cshell l; ok (Some cs)
              end;
      do s <- contraction_string o compact; ok (VStr s))
  | _, _ => None
  end.
