(* operations of the per-format layout models (NWChem electron section, ...) *)
From BSE Require Import Model.Val Model.Basis Model.Nwchem Model.G94.
Definition dec_zshells (v : val) : res (list (Z * list sshell)) :=
  do l <- as_list v;
  mapM (fun x => match x with
                 | VList [VInt z; shs] => do sl <- as_list shs; do ss <- mapM dec_shell sl; ok (z, ss)
                 | _ => fail EDecode
                 end) l.
Definition enc_zshells (l : list (Z * list sshell)) : val :=
  VList (map (fun zs => VList [VInt (fst zs); VList (map enc_shell (snd zs))]) l).
Definition ops_formats (op : string) (args : list val) : option (res val) :=
  match op, args with
  | "nw_write_electron", [VStr harm; els] => Some (do e <- dec_zshells els; do t <- nw_write_electron harm e; ok (VStr t))
  | "nw_read_electron", [ls] => Some (do l <- dec_strs ls; do r <- nw_read_electron l; ok (enc_zshells r))
  | "g94_write_electron", [els] => Some (do e <- dec_zshells els; do t <- g94_write_electron e; ok (VStr t))
  | "g94_read_electron", [ls] => Some (do l <- dec_strs ls; do r <- g94_read_electron l; ok (enc_zshells r))
  | _, _ => None
  end.
