(* operations of the per-format layout models (NWChem electron section, ...) *)
From BSE Require Import Model.Val Model.Lut Model.Basis Model.Nwchem Model.G94 Model.Turbomole Model.NwchemEcp Model.TurbomoleEcp Model.GamessUs Model.GamessUsEcp Model.Libmol Model.Dalton Model.DaltonEcp Model.Cp2k Model.Cp2kEcp Model.Genbas Model.GenbasEcp Model.Molpro Model.Demon2k Model.Demon2kEcp Model.Molcas Model.MolcasEcp Model.Veloxchem Model.Orca Model.Pqs Model.GamessUk Model.Jaguar Model.Fhiaims Model.Bdf Model.Ricdwrap Model.Acesii Model.CrystalW.
Definition dec_zshells (v : val) : res (list (Z * list sshell)) :=
  do l <- as_list v;
  mapM (fun x => match x with
                 | VList [VInt z; shs] => do sl <- as_list shs; do ss <- mapM dec_shell sl; ok (z, ss)
                 | _ => fail EDecode
                 end) l.
Definition enc_zshells (l : list (Z * list sshell)) : val :=
  VList (map (fun zs => VList [VInt (fst zs); VList (map enc_shell (snd zs))]) l).
Definition dec_epot (v : val) : res epot :=
  do d <- as_dict v;
  do t <- (do x <- field "ecp_type" d; as_str x);
  do a <- (do x <- field "angular_momentum" d; dec_ints x);
  do r <- (do x <- field "r_exponents" d; dec_ints x);
  do g <- (do x <- field "gaussian_exponents" d; dec_strs x);
  do c <- (do x <- field "coefficients" d; do l <- as_list x; mapM dec_strs l);
  ok (mkEpot t a r g c).
Definition enc_epot (p : epot) : val :=
  VDict [("ecp_type", VStr (p_type p)); ("angular_momentum", VList (map VInt (p_am p))); ("r_exponents", VList (map VInt (p_rexp p)));
         ("gaussian_exponents", VStrs (p_gexp p)); ("coefficients", VList (map VStrs (p_coef p)))].
Definition dec_zecps (v : val) : res (list (Z * (Z * list epot))) :=
  do l <- as_list v;
  mapM (fun x => match x with
                 | VList [VInt z; VInt ne; ps] => do pl <- as_list ps; do pp <- mapM dec_epot pl; ok (z, (ne, pp))
                 | _ => fail EDecode
                 end) l.
Definition enc_nw_el (e : nw_el) : val :=
  VDict [("electron_shells", VList (map enc_shell (e_shells e)));
         ("ecp_electrons", match e_nelec e with Some n => VInt n | None => VNone end);
         ("ecp_potentials", VList (map enc_epot (e_pots e)))].
Definition enc_gus_el (e : gus_el) : val :=
  VDict [("electron_shells", match g_shells e with Some shs => VList (map enc_shell shs) | None => VNone end);
         ("ecp_electrons", match g_ecp e with Some g => VInt (fst g) | None => VNone end);
         ("ecp_potentials", match g_ecp e with Some g => VList (map enc_epot (snd g)) | None => VNone end)].
Definition dec_zeshells (v : val) : res (list (Z * (Z * list sshell))) :=
  do l <- as_list v;
  mapM (fun x => match x with
                 | VList [VInt z; VInt ne; shs] => do sl <- as_list shs; do ss <- mapM dec_shell sl; ok (z, (ne, ss))
                 | _ => fail EDecode
                 end) l.
Definition enc_znwels (r : list (Z * nw_el)) : val := VList (map (fun ze => VList [VInt (fst ze); enc_nw_el (snd ze)]) r).
(* the iteration order of the Python set of cartesian letters is an input: the letters of l in the order of `order` *)
Definition sord_of (order : list string) (l : list string) : list string :=
  filter (fun x => existsb (String.eqb x) l) order ++ filter (fun x => negb (existsb (String.eqb x) order)) l.
Fixpoint sord_tab (tab : list (list string * list string)) (l : list string) : list string :=
  match tab with
  | [] => l
  | (i, o) :: t => if list_eq_dec string_dec i l then o else sord_tab t l
  end.
(* the iteration order of Python's set of cartesian letters: either one global order (list of letters) or, exact for any hash
   seed, a table from the letters in insertion order to the order in which the set yielded them (read off the written text) *)
Definition dec_sord (v : val) : res (list string -> list string) :=
  do l <- as_list v;
  match l with
  | VList _ :: _ =>
      do ps <- mapM (fun x => match x with VList [a; b] => do i <- dec_strs a; do o <- dec_strs b; ok (i, o) | _ => fail EDecode end) l;
      ok (sord_tab ps)
  | _ => do o <- dec_strs v; ok (sord_of o)
  end.
Definition dec_mels (v : val) : res (list (Z * mel)) :=
  do l <- as_list v;
  mapM (fun x => match x with
                 | VList [VInt z; shs; ne; ps] =>
                   do s <- (match shs with VNone => ok None | _ => do sl <- as_list shs; do ss <- mapM dec_shell sl; ok (Some ss) end);
                   do e <- (match ne, ps with
                            | VInt n, VNone => ok (Some (n, []))
                            | VInt n, _ => do pl <- as_list ps; do pp <- mapM dec_epot pl; ok (Some (n, pp))
                            | _, _ => ok None
                            end);
                   ok (z, (s, e))
                 | _ => fail EDecode
                 end) l.
Definition dec_metas (v : val) : res (list (Z * (string * string))) :=
  do l <- as_list v;
  mapM (fun x => match x with VList [VInt z; VStr a; VStr r] => ok (z, (a, r)) | _ => fail EDecode end) l.
Definition meta_of (ms : list (Z * (string * string))) (z : Z) : string * string :=
  match assocZ z ms with Some p => p | None => ("", "") end.
Definition enc_mc_eld (e : mc_eld) : val :=
  let '(shs, ne, ps) := e in
  VDict [("electron_shells", match shs with Some l => VList (map enc_shell l) | None => VNone end);
         ("ecp_electrons", match ne with Some n => VInt n | None => VNone end);
         ("ecp_potentials", match ps with Some l => VList (map enc_epot l) | None => VNone end)].
Definition ops_formats (op : string) (args : list val) : option (res val) :=
  match op, args with
  | "nw_write_electron", [VStr harm; els] => Some (do e <- dec_zshells els; do t <- nw_write_electron harm e; ok (VStr t))
  | "nw_read_electron", [ls] => Some (do l <- dec_strs ls; do r <- nw_read_electron l; ok (enc_zshells r))
  | "tmecp_write", [VStr role; VStr name; els; ecps] =>
      Some (do e <- dec_zshells els; do c <- dec_zecps ecps; do t <- tmecp_write role name e c; ok (VStr t))
  | "tmecp_read", [ls] => Some (do l <- dec_strs ls; do r <- tmecp_read l; ok (VList (map (fun ze => VList [VInt (fst ze); enc_nw_el (snd ze)]) r)))
  | "gus_write_electron", [els] => Some (do e <- dec_zshells els; do t <- gus_write_electron e; ok (VStr t))
  | "gus_read_electron", [ls] => Some (do l <- dec_strs ls; do r <- gus_read_electron l; ok (enc_zshells r))
  | "gus_write_all", [els; ecps] => Some (do e <- dec_zshells els; do c <- dec_zecps ecps; do t <- gus_write_all e c; ok (VStr t))
  | "gus_read_all", [ls] => Some (do l <- dec_strs ls; do r <- gus_read_all l; ok (VList (map (fun ze => VList [VInt (fst ze); enc_gus_el (snd ze)]) r)))
  | "lmol_write_electron", [VStr harm; VStr name; els] => Some (do e <- dec_zshells els; do t <- lmol_write_electron harm name e; ok (VStr t))
  | "lmol_read_electron", [ls] => Some (do l <- dec_strs ls; do r <- lmol_read_electron l; ok (enc_zshells r))
  | "dal_write_all", [VStr name; els; ecps] => Some (do e <- dec_zshells els; do c <- dec_zecps ecps; do t <- dal_write_all name e c; ok (VStr t))
  | "dal_read_all", [ls] => Some (do l <- dec_strs ls; do r <- dal_read_all l; ok (VList (map (fun ze => VList [VStr (fst ze); enc_nw_el (snd ze)]) r)))
  | "cp2k_write_all", [VStr name; els; ecps] => Some (do e <- dec_zshells els; do c <- dec_zecps ecps; do t <- cp2k_write_all name e c; ok (VStr t))
  | "cp2k_read_electron", [ls] => Some (do l <- dec_strs ls; do r <- cp2k_read_electron l; ok (enc_zshells r))
  | "c4ecp_write", [VStr name; VStr desc; els; ecps] => Some (do e <- dec_zshells els; do c <- dec_zecps ecps; do t <- c4ecp_write name desc e c; ok (VStr t))
  | "c4ecp_read", [ls] => Some (do l <- dec_strs ls; do r <- c4ecp_read l; ok (enc_znwels r))
  | "mpro_write_electron", [VStr harm; els] => Some (do e <- dec_zshells els; do t <- mpro_write_electron harm e; ok (VStr t))
  | "mpro_read_electron", [ls] => Some (do l <- dec_strs ls; do r <- mpro_read_electron l; ok (enc_zshells r))
  | "vlx_write_electron", [VStr name; els] => Some (do e <- dec_zshells els; do t <- vlx_write_electron name e; ok (VStr t))
  | "vlx_read_electron", [ls] => Some (do l <- dec_strs ls; do r <- vlx_read_electron l; ok (enc_zshells r))
  | "vlx_unbroken_md5", [VStr s] => Some (ok (VStr (md5_hex (vlx_unbroken s))))
  | "orca_write_all", [els; ecps] => Some (do e <- dec_zshells els; do c <- dec_zecps ecps; do t <- orca_write_all e c; ok (VStr t))
  | "pqs_write_all", [els; ecps] => Some (do e <- dec_zshells els; do c <- dec_zecps ecps; do t <- pqs_write_all e c; ok (VStr t))
  | "guk_write_all", [els; ecps] => Some (do e <- dec_zshells els; do c <- dec_zecps ecps; do t <- guk_write_all e c; ok (VStr t))
  | "jag_write_all", [VStr name; types; els; ecps] =>
      Some (do ty <- dec_strs types; do e <- dec_zshells els; do c <- dec_zecps ecps; do t <- jag_write_all name ty e c; ok (VStr t))
  | "fhi_write_all", [VStr name; types; els; ecps] =>
      Some (do ty <- dec_strs types; do e <- dec_zshells els; do c <- dec_zecps ecps; do t <- fhi_write_all name ty e c; ok (VStr t))
  | "bdf_write_all", [els; ecps] => Some (do e <- dec_zshells els; do c <- dec_zecps ecps; do t <- bdf_write_all e c; ok (VStr t))
  | "d2k_write_all", [VBool sph; VStr name; els; ecps] => Some (do e <- dec_zeshells els; do c <- dec_zecps ecps; do t <- d2k_write_all sph name e c; ok (VStr t))
  | "d2k_read_all", [ls] => Some (do l <- dec_strs ls; do r <- d2k_read_all l; ok (enc_znwels r))
  | "ricd_write_all", [order; els] => Some (do so <- dec_sord order; do e <- dec_mels els;
                                           do t <- ricdwrap_write_all so (map (fun ze => (fst ze, fst (snd ze))) e); ok (VStr t))
  | "crystal_write_all", [els] => Some (do e <- dec_mels els; do t <- crystal_write_all e; ok (VStr t))
  | "acesii_write_all", [VStr name; VStr desc; els; ecps] =>
      Some (do e <- dec_zshells els; do c <- dec_zecps ecps; do t <- acesii_write_all name desc e c; ok (VStr t))
  | "mcas_write_all", [order; els] => Some (do so <- dec_sord order; do e <- dec_mels els; do t <- mcas_write_all so e; ok (VStr t))
  | "mcasl_write_all", [order; VStr name; metas; els] =>
      Some (do so <- dec_sord order; do ms <- dec_metas metas; do e <- dec_mels els;
            do t <- mcasl_write_all so name (meta_of ms) e; ok (VStr t))
  | "mcas_read_all", [ls] => Some (do l <- dec_strs ls; do r <- mcas_read_all l;
                                   ok (VList [VList (map (fun ze => VList [VInt (fst ze); enc_mc_eld (snd ze)]) (fst r)); VStr (snd r)]))
  | "g94_write_electron", [els] => Some (do e <- dec_zshells els; do t <- g94_write_electron e; ok (VStr t))
  | "tm_write_electron", [VStr role; VStr name; els] => Some (do e <- dec_zshells els; do t <- tm_write_electron role name e; ok (VStr t))
  | "tm_read_electron", [ls] => Some (do l <- dec_strs ls; do r <- tm_read_electron l; ok (enc_zshells r))
  | "nw_write_all", [VStr harm; els; ecps] => Some (do e <- dec_zshells els; do c <- dec_zecps ecps; do t <- nw_write_all harm e c; ok (VStr t))
  | "nw_read_all", [ls] => Some (do l <- dec_strs ls; do r <- nw_read_all l; ok (VList (map (fun ze => VList [VInt (fst ze); enc_nw_el (snd ze)]) r)))
  | "g94_read_electron", [ls] => Some (do l <- dec_strs ls; do r <- g94_read_electron l; ok (enc_zshells r))
  | _, _ => None
  end.
