(* Operation table: composition from a data directory, index generation and index queries (C01, C05, C11). *)
From BSE Require Import Model.Val Model.Elements Model.Compose Model.Index Ops.OpsC20.

Definition dec_datadir (v : val) : res datadir := as_dict v.
Definition dec_opt_str (v : val) : res (option string) :=
  match v with VNone => ok None | VStr s => ok (Some s) | _ => fail EDecode end.
Definition dec_opt_elsel (v : val) : res (option elsel) :=
  match v with VNone => ok None | _ => do s <- dec_elsel v; ok (Some s) end.
Definition dec_version (v : val) : res version_arg :=
  match v with
  | VNone => ok VerNone
  | VStr s => ok (VerStr s)
  | VInt z => ok (VerStr (Z_to_string z))     (* str(version) *)
  | _ => fail EDecode
  end.

Definition ops_compose (op : string) (args : list val) : option (res val) :=
  match op, args with
  | "compose_table_basis", [d; VStr p] => Some (do dd <- dec_datadir d; compose_table_basis dd p)
  | "get_basis_plain", [d; VStr name; ver; els] =>
      Some (do dd <- dec_datadir d; do v <- dec_version ver; do e <- dec_opt_elsel els; get_basis_plain dd name v e)
  | "create_metadata", [d] => Some (do dd <- dec_datadir d; create_metadata dd)
  | "filter_basis_sets", [VDict m; substr; family; role; els] =>
      Some (do s <- dec_opt_str substr; do f <- dec_opt_str family; do r <- dec_opt_str role; do e <- dec_opt_elsel els;
            do out <- filter_basis_sets m s f r e; ok (VDict out))
  | "lookup_basis_by_role", [VDict m; VStr primary; VStr role] =>
      Some (do l <- lookup_basis_by_role m primary role; ok (VStrs l))
  | "get_all_basis_names", [VDict m] => Some (do l <- get_all_basis_names m; ok (VStrs l))
  | "get_families", [VDict m] => Some (do l <- get_families m; ok (VStrs l))
  | _, _ => None
  end.
