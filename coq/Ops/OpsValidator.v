From BSE Require Import Model.Val Model.Schema Model.Validator.
Definition ops_validator (op : string) (args : list val) : option (res val) :=
  match op, args with
  | "validate_data", [VStr kind; v] => Some (do _ <- validate_data kind v; ok VNone)
  | "check_schema", [VStr kind; v] =>
      Some (match schema_of kind with Some sc => ok (VBool (check_schema sc v)) | None => fail ERuntime end)
  | _, _ => None
  end.
