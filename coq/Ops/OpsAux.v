From BSE Require Import Model.Val Model.Aux.
Definition dec_frac (v : val) : res frac :=
  match v with VList [VInt n; VInt d] => if (d >? 0)%Z then ok (n, d) else fail EDecode | _ => fail EDecode end.
Definition dec_ofrac (v : val) : res (option frac) := match v with VNone => ok None | _ => do f <- dec_frac v; ok (Some f) end.
Definition enc_frac (f : frac) : val := VList [VInt (fst f); VInt (snd f)].
Definition ops_aux (op : string) (args : list val) : option (res val) :=
  match op, args with
  | "autoaux_element", [VInt z; VInt lmax; a; b; c] =>
      Some (do amin <- (do l <- as_list a; mapM dec_ofrac l); do ap <- (do l <- as_list b; mapM dec_ofrac l);
            do ae <- (do l <- as_list c; mapM dec_ofrac l);
            do r <- autoaux_element 400 z (Z.to_nat lmax) amin ap ae;
            ok (VList (map (fun p => VList [VNat (fst p); VList (map enc_frac (snd p))]) r)))
  | "autoabs_element", [VInt z; VInt inc; fs; prims] =>
      Some (do f <- dec_frac fs;
            do ps <- (do l <- as_list prims; mapM (fun p => match p with
                                                            | VList [x; VInt l] => do xf <- dec_frac x; ok (xf, Z.to_nat l)
                                                            | _ => fail EDecode end) l);
            do r <- autoabs_element z inc f ps;
            ok (VList (map (fun g => VList [VList (map (fun c => VList [enc_frac (fst c); VNat (snd c)]) (fst g)); VNat (snd g)]) r)))
  | _, _ => None
  end.
