From BSE Require Import Model.Val Model.Text Model.Header Gen.GenWriters Gen.GenReaders Model.Basis.
Definition ops_text (op : string) (args : list val) : option (res val) :=
  match op, args with
  | "splitlines", [VStr s; VBool keep] => Some (ok (VStrs (if keep then splitlines_keepends s else splitlines s)))
  | "strip", [VStr s] => Some (ok (VStr (strip_ws s)))
  | "prune_lines", [l; VStr sk; VBool pb; VBool se] => Some (do ls <- dec_strs l; ok (VStrs (prune_lines ls sk pb se)))
  | "header_comment", [VStr c; VStr h] => Some (ok (VStr (header_comment c h)))
  | "write_formatted", [VStr fmt; ft; VStr body; h] =>
      Some (do fts <- dec_strs ft;
            do hd <- match h with VNone => ok None | VStr x => ok (Some x) | _ => fail EDecode end;
            do r <- write_formatted fmt fts body hd; ok (VStr r))
  | "writer_table", [] =>
      Some (ok (VDict (map (fun p => (fst p, VDict [("comment", match w_comment (snd p) with Some c => VStr c | None => VNone end);
                                                    ("valid", match w_valid (snd p) with Some v => VStrs v | None => VNone end);
                                                    ("extension", VStr (w_extension (snd p)))])) writer_map)))
  | "reader_table", [] =>
      Some (ok (VDict (map (fun p => (fst p, VDict [("extension", VStr (r_extension (snd p)));
                                                    ("skipchars", match r_skipchars (snd p) with Some c => VStr c | None => VNone end)])) reader_map)))
  | _, _ => None
  end.
