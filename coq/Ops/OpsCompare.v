From BSE Require Import Model.Val Model.Num Model.Basis Model.Manip Model.Validator Model.Compare Ops.OpsManip.

(* a shell on the wire carries its contraction order under "cidx" *)
Definition dec_cshell (v : val) : res cshellT :=
  do s <- dec_shell v; do d <- as_dict v; do c <- (do x <- field "cidx" d; dec_nats x); ok (s, c).
Definition enc_cshell (s : cshellT) : val := enc_shell (fst s).

Definition dec_celement (v : val) : res celement :=
  do d <- as_dict v;
  do sh <- match assoc "electron_shells" d with
           | Some x => do l <- as_list x; do s <- mapM dec_cshell l; ok (Some s)
           | None => ok None end;
  do ps <- match assoc "ecp_potentials" d with
           | Some x => do l <- as_list x; do p <- mapM dec_pot l; ok (Some p)
           | None => ok None end;
  ok {| ce_shells := sh; ce_pots := ps; ce_nelec := assoc "ecp_electrons" d; ce_refs := assoc "references" d |}.
Definition dec_celements (v : val) : res (list (string * celement)) :=
  do d <- as_dict v; mapM (fun kv => do e <- dec_celement (snd kv); ok (fst kv, e)) d.

Definition dec_dbasis (v : val) : res dbasis :=
  do d <- as_dict v;
  mapM (fun kv => do ed <- as_dict (snd kv);
                  match assoc "electron_shells" ed with
                  | Some x => do l <- as_list x; do s <- mapM dec_cshell l; ok (fst kv, Some s)
                  | None => ok (fst kv, None)
                  end) d.
Definition enc_dbasis (b : dbasis) : val :=
  VDict (map (fun kv => (fst kv, match snd kv with Some s => VList (map enc_cshell s) | None => VNone end)) b).

Definition ops_compare (op : string) (args : list val) : option (res val) :=
  match op, args with
  | "compare_vector", [VInt tn; VInt td; a; b] =>
      Some (do x <- dec_strs a; do y <- dec_strs b; do r <- compare_vector tn td x y; ok (VBool r))
  | "compare_electron_shells", [VInt tn; VInt td; VBool meta; a; b] =>
      Some (do x <- dec_cshell a; do y <- dec_cshell b; do r <- compare_electron_shells tn td meta x y; ok (VBool r))
  | "electron_shells_are_equal", [VInt tn; VInt td; VBool meta; a; b] =>
      Some (do x <- (do l <- as_list a; mapM dec_cshell l); do y <- (do l <- as_list b; mapM dec_cshell l);
            do r <- electron_shells_are_equal tn td meta x y; ok (VBool r))
  | "ecp_pots_are_equal", [VBool meta; a; b] =>
      Some (do x <- (do l <- as_list a; mapM dec_pot l); do y <- (do l <- as_list b; mapM dec_pot l);
            do r <- ecp_pots_are_equal meta x y; ok (VBool r))
  | "compare_basis", [VInt tn; VInt td; VBool f1; VBool f2; VBool f3; a; b] =>
      Some (do x <- dec_celements a; do y <- dec_celements b; do r <- compare_basis tn td f1 f2 f3 x y; ok (VBool r))
  | "diff_basis_dict", [l; r] =>
      Some (do ls <- (do x <- as_list l; mapM dec_dbasis x); do rs <- (do x <- as_list r; mapM dec_dbasis x);
            do out <- diff_basis_dict ls rs; ok (VList (map enc_dbasis out)))
  | _, _ => None
  end.
