From BSE Require Import Model.Val Model.Compose Model.Refs.
Definition dec_fmt (s : string) : res rfmt :=
  if String.eqb s "txt" then ok FTxt else if String.eqb s "bib" then ok FBib else
  if String.eqb s "ris" then ok FRis else if String.eqb s "endnote" then ok FEndnote else fail ERuntime.
Definition dec_txt (v : val) : res (list (string * string)) :=
  do d <- as_dict v; mapM (fun kv => do s <- as_str (snd kv); ok (fst kv, s)) d.
Definition dec_refs (v : val) : res (list (string * list (string * val))) :=
  do d <- as_dict v; mapM (fun kv => do r <- as_dict (snd kv); ok (fst kv, r)) d.
Definition ops_refs (op : string) (args : list val) : option (res val) :=
  match op, args with
  | "compact_references", [VDict els; VDict refs] => Some (do g <- compact_references els refs; ok (enc_groups g))
  | "write_bib", [VStr k; VDict r] => Some (do s <- write_bib k r; ok (VStr s))
  | "write_ris", [VStr k; VDict r] => Some (do s <- write_ris k r; ok (VStr s))
  | "write_endnote", [VStr k; VDict r] => Some (do s <- write_endnote k r; ok (VStr s))
  | "convert_references", [VStr f; txt; VStr desc; libs; VList groups] =>
      Some (do fm <- dec_fmt f; do t <- dec_txt txt; do l <- dec_refs libs;
            do s <- convert_references fm t desc l groups; ok (VStr s))
  | "process_notes", [VStr notes; keys; txt] =>
      Some (do ks <- (do l <- as_list keys; mapM as_str l); do t <- dec_txt txt; do s <- process_notes notes ks t; ok (VStr s))
  | _, _ => None
  end.
