(* Operation table for the manipulation / sorting model (C02, C07, C08, C12 correspondence). *)
From BSE Require Import Model.Val Model.Num Model.Basis Model.Manip Model.ManipS Model.Sort Model.FS.

Definition on_basis (f : sbasis -> res sbasis) (v : val) : res val :=
  do b <- dec_basis v; do r <- f b; ok (enc_basis r).

Definition dec_nats (v : val) : res (list nat) := do l <- as_list v; mapM as_nat l.

(* ranks: per element (same order as the elements that have shells), per shell: [cidx list, rank] *)
Definition dec_rank (v : val) : res (list nat * nat) :=
  do l <- as_list v;
  match l with
  | [c; r] => do ci <- dec_nats c; do rk <- as_nat r; ok (ci, rk)
  | _ => fail EDecode
  end.

Fixpoint zip_ranks (shs : list sshell) (rk : list (list nat * nat)) : res (list (sshell * (list nat * nat))) :=
  match shs, rk with
  | [], [] => ok []
  | s :: t, r :: rt => do z <- zip_ranks t rt; ok ((s, r) :: z)
  | _, _ => fail EDecode
  end.

Definition sort_element (e : selement) (rk : option (list (list nat * nat))) : res selement :=
  do shs' <- match eshells e, rk with
             | Some shs, Some r => do z <- zip_ranks shs r; ok (Some (sort_shells leb_v "" z))
             | None, _ => ok None
             | Some _, None => fail EDecode
             end;
  do rest' <- match assoc "ecp_potentials" (erest e) with
              | Some (VList pots) => do sp <- sort_potentials pots; ok (assoc_set "ecp_potentials" (VList sp) (erest e))
              | _ => ok (erest e)
              end;
  ok (mkElement shs' rest').

Fixpoint sort_elements (els : list (string * selement)) (ranks : list (string * val)) : res (list (string * selement)) :=
  match els with
  | [] => ok []
  | (k, e) :: t =>
    do rk <- match assoc k ranks with
             | Some v => do l <- as_list v; do r <- mapM dec_rank l; ok (Some r)
             | None => ok None
             end;
    do e' <- sort_element e rk;
    do t' <- sort_elements t ranks;
    ok ((k, e') :: t')
  end.

Definition ops_manip (op : string) (args : list val) : option (res val) :=
  match op, args with
  | "prune_basis", [b] => Some (on_basis s_prune_basis b)
  | "prune_shell", [s] => Some (do sh <- dec_shell s; do r <- s_prune_shell sh; ok (enc_shell r))
  | "uncontract_spdf", [b; VInt m] => Some (on_basis (s_uncontract_spdf m) b)
  | "uncontract_general", [b] => Some (on_basis s_uncontract_general b)
  | "uncontract_segmented", [b] => Some (on_basis (fun x => ok (s_uncontract_segmented x)) b)
  | "make_general", [b; VBool skip] => Some (on_basis (s_make_general skip) b)
  | "remove_free_primitives", [b] => Some (on_basis s_remove_free_primitives b)
  | "optimize_general", [b] => Some (on_basis s_optimize_general b)
  | "sort_basis", [b; VDict ranks] =>
      Some (do bb <- dec_basis b; do els <- sort_elements (belems bb) ranks; ok (enc_basis (mkBasis els (brest bb))))
  | "canonFS", [shs] => Some (do l <- as_list shs; do ss <- mapM dec_shell l; ok (enc_canonFS (canonFS ss)))
  | "parse_num", [VStr s] => Some (ok (match canon_num s with Some (m, e) => VList [VInt m; VInt e] | None => VNone end))
  | _, _ => None
  end.

From BSE Require Import Model.Pipeline.
Definition dec_flags (v : val) : res (list (string * bool)) :=
  do d <- as_dict v; mapM (fun kv => do b <- as_bool (snd kv); ok (fst kv, b)) d.
Definition ops_pipeline (op : string) (args : list val) : option (res val) :=
  match op, args with
  | "get_basis_options", [b; fl] =>
      Some (do bb <- dec_basis b; do f <- dec_flags fl;
            do r <- run_get_basis_options {| o_flags := f; o_counts := []; o_aux := 0 |} bb; ok (enc_basis r))
  | _, _ => None
  end.
