(* operations of the Gaussian94 whole-file model (kept apart from OpsFormats.v: G94Ecp.gpot and NwchemEcp.epot share field names) *)
From BSE Require Import Model.Val Model.Basis Model.G94 Model.G94Ecp Model.G94Family Model.Qchem.
Definition dec_gpot (v : val) : res gpot :=
  do d <- as_dict v;
  do t <- (do x <- field "ecp_type" d; as_str x);
  do a <- (do x <- field "angular_momentum" d; dec_ints x);
  do r <- (do x <- field "r_exponents" d; dec_ints x);
  do g <- (do x <- field "gaussian_exponents" d; dec_strs x);
  do c <- (do x <- field "coefficients" d; do l <- as_list x; mapM dec_strs l);
  ok (mkGpot t a r g c).
Definition enc_gpot (p : gpot) : val :=
  VDict [("ecp_type", VStr (p_type p)); ("angular_momentum", VList (map VInt (p_am p))); ("r_exponents", VList (map VInt (p_rexp p)));
         ("gaussian_exponents", VStrs (p_gexp p)); ("coefficients", VList (map VStrs (p_coef p)))].
Definition dec_zshells2 (v : val) : res (list (Z * list sshell)) :=
  do l <- as_list v;
  mapM (fun x => match x with
                 | VList [VInt z; shs] => do sl <- as_list shs; do ss <- mapM dec_shell sl; ok (z, ss)
                 | _ => fail EDecode
                 end) l.
Definition dec_zgecps (v : val) : res (list (Z * gecp)) :=
  do l <- as_list v;
  mapM (fun x => match x with
                 | VList [VInt z; VInt ne; ps] => do pl <- as_list ps; do pp <- mapM dec_gpot pl; ok (z, (ne, pp))
                 | _ => fail EDecode
                 end) l.
Definition enc_gel (e : gel) : val :=
  VDict [("electron_shells", match fst e with Some shs => VList (map enc_shell shs) | None => VNone end);
         ("ecp_electrons", match snd e with Some g => VInt (fst g) | None => VNone end);
         ("ecp_potentials", match snd e with Some g => VList (map enc_gpot (snd g)) | None => VNone end)].
Definition ops_formats2 (op : string) (args : list val) : option (res val) :=
  match op, args with
  | "g94_write_all", [els; ecps] => Some (do e <- dec_zshells2 els; do c <- dec_zgecps ecps; do t <- g94_write_all e c; ok (VStr t))
  | "g94_read_all", [ls] => Some (do l <- dec_strs ls; do r <- g94_read_all l; ok (VList (map (fun ze => VList [VInt (fst ze); enc_gel (snd ze)]) r)))
  | "g94lib_write_all", [els; ecps] => Some (do e <- dec_zshells2 els; do c <- dec_zgecps ecps; do t <- g94lib_write_all e c; ok (VStr t))
  | "xtron_write_all", [els; ecps] => Some (do e <- dec_zshells2 els; do c <- dec_zgecps ecps; do t <- xtron_write_all e c; ok (VStr t))
  | "psi4_write_all", [els; ecps] => Some (do e <- dec_zshells2 els; do c <- dec_zgecps ecps; do t <- psi4_write_all e c; ok (VStr t))
  | "qchem_write_all", [VStr role; els; ecps] => Some (do e <- dec_zshells2 els; do c <- dec_zgecps ecps; do t <- qchem_write_all role e c; ok (VStr t))
  | _, _ => None
  end.
