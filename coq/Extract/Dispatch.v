(* The single entry point of the executable model: request text -> reply text. *)
From BSE Require Import Model.Val Model.Wire.
From BSE Require Import Ops.OpsC20 Ops.OpsManip Ops.OpsCompose Ops.OpsMemo Ops.OpsValidator Ops.OpsCompare Ops.OpsText Ops.OpsRefs Ops.OpsCli Ops.OpsAugment Ops.OpsAux Ops.OpsAddBasis Ops.OpsBundle Ops.OpsMatrix Ops.OpsFormats Ops.OpsFormats2.

Definition all_ops : list (string -> list val -> option (res val)) :=
  [ ops_c20; ops_manip; ops_pipeline; ops_compose; ops_memo; ops_validator; ops_compare; ops_text; ops_refs; ops_cli; ops_augment; ops_aux; ops_addbasis; ops_bundle; ops_matrix; ops_formats; ops_formats2 ].

Fixpoint dispatch_in (tabs : list (string -> list val -> option (res val))) (op : string) (args : list val) : val :=
  match tabs with
  | [] => VDict [("error", VStr "UnknownOp")]
  | t :: r => match t op args with Some x => reply x | None => dispatch_in r op args end
  end.

Definition handle (req : string) : string :=
  match decode_request req with
  | Some (op, args) => show_val (dispatch_in all_ops op args) ""
  | None => show_val (VDict [("error", VStr "BadRequest")]) ""
  end.
