(* Extraction of the executable model to OCaml.  Directives used: ExtrOcamlBasic
   (bool, option, unit, list, prod, sumbool, sum -> OCaml's own) and ExtrOcamlString
   (ascii -> char, string -> char list).  Z / positive / N / nat stay the extracted inductives. *)
From Coq Require Extraction.
From Coq Require Import ExtrOcamlBasic ExtrOcamlString.
From BSE Require Import Extract.Dispatch.
Extraction Language OCaml.
Extraction "model.ml" handle.
